"""C16 — flatten/unflatten of nested dicts and NNX State conversions are mutual
inverses (DESIGN §4 C16).

Part `tree`: every nested dict of the tier's families x container x sep x
keep_empty_nodes x is_leaf is pushed through the real
flax.traverse_util.{flatten_dict, unflatten_dict, path_aware_map} and
flax.nnx.traversals.{flatten_mapping, flatten_to_sequence, unflatten_mapping}
and compared with a small recursive reference (mc/models/c16_ref.py).

Part `state`: every pair of NNX States over small path universes and every
legal filter tuple is pushed through to_flat_state / from_flat_state /
to_pure_dict / replace_by_pure_dict / split_state / filter_state / merge_state
/ diff / `|` / `-` (and the FlatState / deprecated State method twins) and
compared with a {path: leaf} dictionary model.
"""
from __future__ import annotations

import itertools
import os
import warnings
from collections.abc import Mapping

import numpy as np

from mc.engine import core
from mc.models import c16_ref as R

PROPERTY = 'C16'
LEVEL = 'exploration'
RULE = ('tree part: every nested dict of the listed families (family F1: keys {a,b}, every '
        'shape of depth <= 3 with <= 2 keys per level, int / empty-dict leaves, quick: <= 8 '
        'non-root nodes, thorough: no size cap, i.e. up to the complete 14-node shapes; '
        'family F2: keys {a,b,c} (NNX: plus int keys 0,1; keys of one dict all str or all int), '
        'leaves {int, array, None, empty dict}, depth <= 3, <= 2 keys per level, at most N non-root '
        'nodes) x container (dict, FrozenDict; NNX also State) x sep in {None,"/","."} x '
        'keep_empty_nodes x is_leaf in {none, depth>=1, depth>=2, has-key-a, is-empty, depth==2, last-key-is-b (predicates that read the path as a tuple of keys)}; per case: '
        'flatten vs reference key for key, unflatten(flatten) vs reference pruning, '
        'flatten(unflatten(F)) == F, unflatten of the reversed flat dict, flatten_to_sequence, '
        'path_aware_map call log and result.  state part: universes of 4 (thorough: also 5) '
        'prefix-free paths with str and int keys; every subset pair (a, b) x 3 value schemes x '
        'construction (State(dict) / nnx.state(module)) and every legal 1-2 (thorough: 1-3) tuple '
        'over a 15-filter alphabet.  A tree case is non-trivial when the tree has a path of '
        'length >= 2 or an empty sub-dict; a state case is non-trivial when a and b are both '
        'non-empty.  distinct = distinct tree (per library) / distinct (universe, scheme, origin, '
        'a, b).')
ASSUMPTIONS = [
  'is_leaf predicates return False for the root mapping (is_leaf is documented for the nested '
  'dictionaries; flatten of a root declared leaf yields the key () which no unflatten accepts)',
  'separators do not occur in keys; flat dicts have no prefix conflicts; with a separator and an '
  'int key on an emitted path the only accepted outcomes are TypeError or an exact round trip',
  'leaves are compared by identity, else by type and value/bytes; container classes of rebuilt '
  'levels are not compared (FrozenDict input comes back as dict)',
  'State universes are prefix-free and each level has keys of one type (FlatState sorts paths)',
  'filter semantics themselves (filterlib) belong to C14; here the alphabet is 15 fixed filters',
]

SEPS = [None, '/', '.']
PRED_NAMES = ['none', 'd1', 'd2', 'ka', 'em', 'e2', 'lb']
VCAP = 8  # violations recorded per (unit, clause); enumeration is smallest-first


def bounds(tier):
  if tier == 'quick':
    return dict(depth=3, keys_per_level=2,
                families={'F1': 'keys a,b; leaves int,{}; <= 8 non-root nodes',
                          'F2tu': 'keys a,b,c; leaves int,array,None,{}; <= 4 non-root nodes',
                          'F2nnx': 'keys a,b,0,1; leaves int,array,None,{}; <= 4 non-root nodes'},
                seps=3, keep_empty_nodes=2, is_leaf=7, containers={'tu': 2, 'nnx': 3},
                universes=['U1', 'U2'], schemes=3, filter_alphabet=len(R.FILTERS),
                filter_tuple_len=2)
  return dict(depth=3, keys_per_level=2,
              families={'F1': 'keys a,b; leaves int,{}; all sizes (<= 14 non-root nodes)',
                        'F2tu': 'keys a,b,c; leaves int,array,None,{}; <= 6 non-root nodes',
                        'F2nnx': 'keys a,b,c,0,1; leaves int,array,None,{}; <= 5 non-root nodes'},
              seps=3, keep_empty_nodes=2, is_leaf=7, containers={'tu': 2, 'nnx': 3},
              universes=['U1', 'U2', 'U3'], schemes=3, filter_alphabet=len(R.FILTERS),
              filter_tuple_len=3)


# family name -> (keys, leaves, budget, libs)
def _families(tier):
  if tier == 'quick':
    return {
      'F1': (('a', 'b'), ('I',), 8, ('tu', 'nnx')),
      'F2tu': (('a', 'b', 'c'), ('I', 'A', 'N'), 4, ('tu',)),
      'F2nnx': (('a', 'b', 0, 1), ('I', 'A', 'N'), 4, ('nnx',)),
    }
  return {
    'F1': (('a', 'b'), ('I',), None, ('tu', 'nnx')),
    'F2tu': (('a', 'b', 'c'), ('I', 'A', 'N'), 6, ('tu',)),
    'F2nnx': (('a', 'b', 'c', 0, 1), ('I', 'A', 'N'), 5, ('nnx',)),
  }


_FAM_CACHE = {}


def _family(tier, name):
  k = (tier, name)
  if k not in _FAM_CACHE:
    keys, leaves, budget, _ = _families(tier)[name]
    _FAM_CACHE[k] = R.trees(keys, leaves, 3, maxk=2, budget=budget)
  return _FAM_CACHE[k]


def units(tier, seed):
  tree_units, state_units = [], []
  chunk = 400 if tier == 'quick' else 1500
  for name, (_, _, _, libs) in _families(tier).items():
    n = len(_family(tier, name))
    for lib in libs:
      # interleaved slices (i mod k) so that every unit mixes small and large trees
      k = max(1, -(-n // chunk))
      for r in range(k):
        tree_units.append(dict(part='tree', family=name, lib=lib, rem=r, mod=k))
  unis = ['U1', 'U2'] if tier == 'quick' else ['U1', 'U2', 'U3']
  for u in unis:
    n = len(R.UNIVERSES[u])
    step = 4 if n == 4 else 2
    for scheme in R.SCHEMES:
      for origin in (['direct', 'module'] if u == 'U1' else ['direct']):
        for lo in range(0, 2 ** n, step):
          state_units.append(dict(part='state', universe=u, scheme=scheme, origin=origin,
                                  amasks=list(range(lo, lo + step))))
  # state and tree units alternate at the head of the list (the evidence samples
  # are taken from the first units), the remaining tree units follow
  us = []
  for i in range(max(len(tree_units), len(state_units))):
    if i < len(state_units):
      us.append(state_units[i])
    if i < len(tree_units):
      us.append(tree_units[i])
  # the seed only rotates the order in which units are handed out (by an even
  # amount, so the alternation at the head is kept)
  r = (2 * seed) % len(us)
  return us[r:] + us[:r] + [dict(part='hollow')]


def setup_worker():
  import jax  # noqa
  import flax  # noqa
  from flax import nnx  # noqa
  warnings.filterwarnings('ignore', category=DeprecationWarning)


def run_unit(unit):
  res = core.new_result()
  res['_vcount'] = {}
  if unit['part'] == 'tree':
    _run_trees(res, unit)
  elif unit['part'] == 'hollow':
    _run_hollow(res)
  else:
    _run_states(res, unit)
  res['extra'] = {f'violations_{k}': v for k, v in res.pop('_vcount').items()}
  return res


def _V(res, clause, key, what, case, observed=None, expected=None):
  c = res['_vcount']
  c[clause] = c.get(clause, 0) + 1
  if c[clause] <= VCAP:
    core.violation(res, key, what, case, observed=_show(observed), expected=_show(expected))


def _show(x):
  if x is None:
    return None
  return repr(x)[:1500]


# ==========================================================================
# tree part


def _arr(kind, i):
  import jax.numpy as jnp
  k = kind % 3
  if k == 0:
    return np.array([i, i + 1], np.int32)
  if k == 1:
    return jnp.asarray([float(i), float(i) + 2.0], jnp.float32)
  return np.array([[float(i)], [float(i) + 1.0]], np.float64)


def _build(desc, leafobj, path=()):
  """descriptor -> plain nested dict, leaf objects taken from leafobj[path]."""
  if not R.is_dict(desc):
    return leafobj[path]
  return {k: _build(c, leafobj, path + (k,)) for k, c in desc}


def _leaf_objects(desc, seed):
  objs = {}
  for i, (p, tok) in enumerate(R.ref_leaves(desc)):
    if tok == 'I':
      objs[p] = i          # the first int leaf is 0 (falsy) on purpose
    elif tok == 'A':
      objs[p] = _arr(seed + i, i)
    else:
      objs[p] = None
  return objs


def _leaf_eq(x, y):
  if x is y:
    return True
  if type(x) is not type(y):
    return False
  if hasattr(x, 'dtype') and hasattr(x, 'shape'):
    xa, ya = np.asarray(x), np.asarray(y)
    return xa.dtype == ya.dtype and xa.shape == ya.shape and xa.tobytes() == ya.tobytes()
  try:
    return bool(x == y)
  except Exception:
    return False


_MAPTYPE = {}


def _is_map(x):
  t = type(x)
  r = _MAPTYPE.get(t)
  if r is None:
    r = _MAPTYPE[t] = issubclass(t, Mapping)
  return r


def _eq(x, y):
  """structural equality: mappings by key set and children (container class
  ignored), leaves by _leaf_eq."""
  xm, ym = _is_map(x), _is_map(y)
  if xm or ym:
    if not (xm and ym) or len(x) != len(y):
      return False
    if x is y:
      return True
    for k in y:
      if k not in x or not _eq(x[k], y[k]):
        return False
    return True
  return x is y or _leaf_eq(x, y)


def _plain(x):
  """printable copy of a result (mappings -> dict)."""
  if isinstance(x, Mapping):
    return {k: _plain(v) for k, v in x.items()}
  return x


def _libs():
  from flax import traverse_util as tu
  from flax.nnx import traversals as tr
  return {
    'tu': dict(flatten=lambda xs, **kw: tu.flatten_dict(xs, **kw),
               unflatten=lambda xs, sep=None: tu.unflatten_dict(xs, sep=sep),
               empty=tu.empty_node),
    'nnx': dict(flatten=lambda xs, **kw: tr.flatten_mapping(xs, **kw),
                unflatten=lambda xs, sep=None: tr.unflatten_mapping(xs, sep=sep),
                empty=tr.empty_node),
  }


def _containers(lib):
  from flax.core import freeze
  out = [('dict', lambda d: d), ('frozen', freeze)]
  if lib == 'nnx':
    from flax import nnx
    out.append(('state', lambda d: nnx.State(d)))
  return out


def _run_trees(res, unit):
  tier = os.environ.get('VERIF_TIER', 'quick')
  seed = int(os.environ.get('VERIF_SEED', '0'))
  fam = _family(tier, unit['family'])
  lib = unit['lib']
  L = _libs()[lib]
  conts = _containers(lib)
  preds = {n: R.real_pred(n) for n in PRED_NAMES}
  sampled = False
  for idx in range(unit['rem'], len(fam), unit['mod']):
    desc = fam[idx]
    text = R.tree_text(desc)
    leafobj = _leaf_objects(desc, seed)
    plain = _build(desc, leafobj)
    if R.depth_of(desc) >= 2:
      res['nontrivial'].append(core.h([lib, text]))
    intkey = R.has_int_key(desc)
    # reference results depend on (keep, pred) only
    refs = {}
    for keep in (False, True):
      for pn in PRED_NAMES:
        rf = R.ref_flatten(desc, keep, pn)
        rr = _build(R.ref_round(desc, keep, pn), leafobj)
        refs[keep, pn] = (rf, rr)
    for cname, mk in conts:
      xs = mk(plain)
      for pn in PRED_NAMES:
        pred = preds[pn]
        for keep in (False, True):
          rf, rr = refs[keep, pn]
          for sep in SEPS:
            cfg = f'{lib}|{cname}|sep={sep}|keep={int(keep)}|is_leaf={pn}'
            _one_flatten(res, L, lib, xs, plain, desc, text, cfg, sep, keep, pred, rf, rr,
                         intkey)
        if lib == 'nnx':
          _one_sequence(res, xs, plain, text, f'{lib}|{cname}|is_leaf={pn}', pred,
                        refs[False, pn])
      if lib == 'tu':
        _one_pam(res, xs, desc, leafobj, text, f'{lib}|{cname}')
    if not sampled and R.depth_of(desc) >= 3 and () in [c for _, c in desc]:
      sampled = True
      res['samples'].append(dict(
        tree=text, lib=lib,
        flat_keep_sep=repr(L['flatten'](plain, keep_empty_nodes=True,
                                        sep=None if intkey else '/')),
        flat_nokeep=repr(L['flatten'](plain)),
        roundtrip_nokeep=repr(L['unflatten'](L['flatten'](plain)))))


def _impl(res, clause, lib, text, cfg, fn):
  """run one implementation call; an exception on a legal input is a violation
  (one key per clause / library / exception type, first case kept)."""
  res['evals'] += 1
  try:
    return True, fn()
  except Exception as e:  # noqa: reported, never swallowed
    _V(res, clause + '-raises', f'{clause}-raises|{lib}|{type(e).__name__}',
       f'{clause} raised {type(e).__name__}: {e} on a legal input',
       dict(config=cfg, tree=text))
    core.outcome(res, f'{clause}-raises-{type(e).__name__}')
    return False, None


def _match_flat(F, rf, sep, plain, empty):
  """compare a real flat dict with the reference entries; returns None or a
  description of the first difference."""
  if not isinstance(F, dict):
    return f'result is a {type(F).__name__}, not a dict'
  if len(F) != len(rf):
    return f'{len(F)} entries, reference has {len(rf)}'
  for path, marker in rf:
    k = R.join(path, sep)
    if k not in F:
      return f'key {k!r} missing'
    v = F[k]
    if marker == 'EMPTY':
      if v is not empty:
        return f'value at {k!r} should be the empty_node sentinel, is {v!r}'
    elif marker[0] == 'leaf':
      if v is empty or not _eq(v, R_sub(plain, path)):
        return f'leaf at {k!r} differs'
    else:
      if v is empty or not isinstance(v, Mapping) or not _eq(v, R_sub(plain, path)):
        return f'sub-dict kept by is_leaf at {k!r} differs'
  return None


def R_sub(plain, path):
  for k in path:
    plain = plain[k]
  return plain


def _same_flat(F1, F2, empty):
  if len(F1) != len(F2):
    return False
  for k, v in F1.items():
    if k not in F2:
      return False
    w = F2[k]
    if (v is empty) != (w is empty):
      return False
    if v is not empty and not _eq(w, v):
      return False
  return True


def _one_flatten(res, L, lib, xs, plain, desc, text, cfg, sep, keep, pred, rf, rr, intkey):
  case = dict(config=cfg, tree=text)
  key = lambda clause: f'{clause}|{cfg}|{text}'
  expect_typeerror = False
  if sep is not None and intkey:
    expect_typeerror = any(any(not isinstance(k, str) for k in p) for p, _ in rf)
  res['evals'] += 1
  if expect_typeerror:
    # out of the statement's scope (string-keyed dicts); the only accepted
    # outcomes are TypeError or a loss-free round trip
    try:
      F = L['flatten'](xs, keep_empty_nodes=keep, is_leaf=pred, sep=sep)
    except TypeError:
      core.outcome(res, 'sep+int-key:TypeError')
      return
    res['evals'] += 1
    U = L['unflatten'](F, sep=sep)
    if not _eq(U, rr):
      _V(res, 'sep-intkey', key('sep-intkey'),
         'flatten with a separator accepted a non-str key and the round trip lost it',
         case, observed=_plain(U), expected=rr)
    core.outcome(res, 'sep+int-key:accepted')
    return
  ok, F = _impl(res, 'flatten', lib, text, cfg,
                lambda: L['flatten'](xs, keep_empty_nodes=keep, is_leaf=pred, sep=sep))
  if not ok:
    return
  diff = _match_flat(F, rf, sep, plain, L['empty'])
  if diff is not None:
    _V(res, 'flatten', key('flatten'), 'flatten differs from the reference: ' + diff, case,
       observed=F, expected=[(R.join(p, sep), m) for p, m in rf])
    return
  ok, U = _impl(res, 'unflatten', lib, text, cfg, lambda: L['unflatten'](F, sep=sep))
  if not ok:
    return
  if not _eq(U, rr):
    _V(res, 'roundtrip', key('roundtrip'),
       'unflatten(flatten(x)) is not x' + (' (keep_empty_nodes)' if keep
                                            else ' with its leafless sub-dicts removed'),
       case, observed=_plain(U), expected=rr)
    return
  # flatten o unflatten == id on the flat dict
  ok, F2 = _impl(res, 'flatten', lib, text, cfg,
                 lambda: L['flatten'](U, keep_empty_nodes=keep, is_leaf=pred, sep=sep))
  if ok and not _same_flat(F, F2, L['empty']):
    _V(res, 'reflatten', key('reflatten'), 'flatten(unflatten(F)) != F', case,
       observed=F2, expected=F)
  # unflatten does not depend on the order of the flat entries
  if len(F) >= 2:
    Frev = dict(reversed(list(F.items())))
    ok, U2 = _impl(res, 'unflatten', lib, text, cfg, lambda: L['unflatten'](Frev, sep=sep))
    if ok and not _eq(U2, rr):
      _V(res, 'unflatten-order', key('unflatten-order'),
         'unflatten of the same flat entries in reverse order gives another dict', case,
         observed=_plain(U2), expected=rr)
  n_sent = sum(1 for _, m in rf if m == 'EMPTY')
  n_sub = sum(1 for _, m in rf if m != 'EMPTY' and m[0] == 'sub')
  core.outcome(res, f'flat={len(rf)} sentinels={n_sent} leafdicts={n_sub} '
                    f'pruned={int(not _eq(rr, plain))}')


def _one_sequence(res, xs, plain, text, cfg, pred, ref):
  from flax.nnx import traversals as tr
  rf, rr = ref
  case = dict(config=cfg, tree=text)
  ok, seq = _impl(res, 'sequence', 'nnx', text, cfg,
                  lambda: tr.flatten_to_sequence(xs, is_leaf=pred))
  if not ok:
    return
  bad = None
  if not isinstance(seq, list) or len(seq) != len(rf):
    bad = f'{len(seq)} entries, reference has {len(rf)}'
  else:
    got = {}
    for p, v in seq:
      if p in got:
        bad = f'path {p!r} emitted twice'
      got[p] = v
    if bad is None:
      bad = _match_flat(got, rf, None, plain, tr.empty_node)
  if bad is not None:
    _V(res, 'sequence', f'sequence|{cfg}|{text}',
       'flatten_to_sequence differs from the reference: ' + bad, case, observed=seq,
       expected=rf)
    return
  ok, U = _impl(res, 'unflatten', 'nnx', text, cfg, lambda: tr.unflatten_mapping(seq))
  if ok and not _eq(U, rr):
    _V(res, 'sequence-roundtrip', f'sequence-roundtrip|{cfg}|{text}',
       'unflatten_mapping(flatten_to_sequence(x)) is not x with leafless sub-dicts removed',
       case, observed=_plain(U), expected=rr)
  core.outcome(res, f'seq={len(rf)}')


def _one_pam(res, xs, desc, leafobj, text, cfg):
  from flax import traverse_util as tu
  case = dict(config=cfg, tree=text)
  calls = []

  def f(path, value):
    calls.append((path, value))
    return ('M',) + tuple(path)

  ok, out = _impl(res, 'path_aware_map', 'tu', text, cfg, lambda: tu.path_aware_map(f, xs))
  if not ok:
    return
  leaves = R.ref_leaves(desc)
  bad = None
  if len(calls) != len(leaves):
    bad = f'{len(calls)} calls for {len(leaves)} leaves'
  else:
    seen = {}
    for p, v in calls:
      if not isinstance(p, tuple) or p in seen:
        bad = f'path {p!r} visited twice or not a tuple'
        break
      seen[p] = v
    if bad is None:
      for p, _ in leaves:
        if p not in seen or not _leaf_eq(seen[p], leafobj[p]):
          bad = f'leaf at {p!r} not visited with its own value'
          break
  if bad is not None:
    _V(res, 'pam-calls', f'pam-calls|{cfg}|{text}',
       'path_aware_map did not visit every leaf exactly once with its full path: ' + bad,
       case, observed=calls, expected=[(p, leafobj[p]) for p, _ in leaves])
    return
  exp = _build(desc, {p: ('M',) + p for p, _ in leaves})
  if not _eq(out, exp):
    _V(res, 'pam-structure', f'pam-structure|{cfg}|{text}',
       'path_aware_map did not preserve the structure', case, observed=_plain(out),
       expected=exp)
  core.outcome(res, f'pam leaves={len(leaves)}')


# ==========================================================================
# state part


def _types():
  from flax import nnx
  return {'Param': nnx.Param, 'BatchStat': nnx.BatchStat, 'Cache': nnx.Cache,
          'Variable': nnx.Variable}


def _val(kind, n):
  import jax.numpy as jnp
  k = kind % 3
  if k == 0:
    return n
  if k == 1:
    return np.int32(n)
  return jnp.asarray(n, jnp.int32)


def _leaf(tname, value, seed, i):
  from flax import nnx
  v = _val(seed + i, value)
  if tname == 'raw':
    return v
  return nnx.VariableState(_types()[tname], v)


def _mk_state(model, seed, origin='direct'):
  """real State for a model {path: (type name, value)}."""
  from flax import nnx
  if origin == 'module':
    return nnx.state(_mk_module(model, seed))
  # inserted in reverse path order: nothing may rely on the insertion order of
  # the mapping being the sorted order
  flat = {p: _leaf(t, v, seed, i)
          for i, (p, (t, v)) in enumerate(sorted(model.items(), reverse=True))}
  return nnx.State(R.nest(flat))


def _mk_module(model, seed):
  from flax import nnx
  T = _types()

  class Node(nnx.Module):
    pass

  i = [0]

  def conv(x):
    if isinstance(x, dict):
      if all(isinstance(k, int) for k in x):
        assert sorted(x) == list(range(len(x)))
        return [conv(x[k]) for k in sorted(x)]
      n = Node()
      for k, v in x.items():
        setattr(n, k, conv(v))
      return n
    t, v = x
    i[0] += 1
    return T[t](_val(seed + i[0], v))

  return conv(R.nest(model)) if model else Node()


def _obs_leaf(x):
  from flax import nnx
  if isinstance(x, nnx.VariableState):
    md = tuple(sorted(x.get_metadata()))
    return (x.type.__name__, int(x.value)) + ((md,) if md else ())
  if isinstance(x, nnx.Variable):
    return ('Variable-object:' + type(x).__name__, int(x.value))
  return ('raw', int(x))


def _obs(m, prefix=()):
  """{path: (type name, value)} read through the Mapping interface; an empty
  nested mapping shows up as ('EMPTY-DICT',)."""
  out = {}
  for k, v in m.items():
    if isinstance(v, Mapping):
      if len(v) == 0:
        out[prefix + (k,)] = ('EMPTY-DICT',)
      else:
        out.update(_obs(v, prefix + (k,)))
    else:
      out[prefix + (k,)] = _obs_leaf(v)
  return out


def _obs_pairs(pairs):
  out = {}
  for p, v in pairs:
    if p in out:
      out[p] = ('DUPLICATE',)
    else:
      out[p] = _obs_leaf(v)
  return out


def _real_filter(name):
  from flax import nnx
  from flax.nnx import filterlib
  val = lambda v: int(v.value) if isinstance(v, nnx.VariableState) else int(v)
  return {
    'Param': nnx.Param, 'BatchStat': nnx.BatchStat, 'Variable': nnx.Variable,
    'path:b': filterlib.PathContains('b'), 'path:0': filterlib.PathContains(0),
    'not:Param': filterlib.Not(nnx.Param),
    'any:BatchStat,path:e': (nnx.BatchStat, filterlib.PathContains('e')),
    'all:Param,path:b': filterlib.All(nnx.Param, filterlib.PathContains('b')),
    'len2': lambda p, v: len(p) == 2,
    'odd': lambda p, v: val(v) % 2 == 1,
    'nothing': filterlib.Nothing(), 'none': None, 'false': False, '...': ..., 'true': True,
  }[name]


def _filter_tuples(maxlen):
  names = list(R.FILTERS)
  out = []
  for n in range(1, maxlen + 1):
    for ft in itertools.product(names, repeat=n):
      if R.legal_tuple(ft):
        out.append(ft)
  return out


def _as_tuple(x):
  return x if isinstance(x, tuple) else (x,)


def _run_states(res, unit):
  from flax import nnx
  from flax.nnx import statelib
  tier = os.environ.get('VERIF_TIER', 'quick')
  seed = int(os.environ.get('VERIF_SEED', '0'))
  uni, scheme, origin = unit['universe'], unit['scheme'], unit['origin']
  n = len(R.UNIVERSES[uni])
  tuples = _filter_tuples(2 if tier == 'quick' else 3)
  realf = {name: _real_filter(name) for name in R.FILTERS}
  ctx = f'{uni}|{scheme}|{origin}'

  def S(model):
    return _mk_state(model, seed, origin)

  def call(clause, case, fn):
    res['evals'] += 1
    try:
      return True, fn()
    except Exception as e:  # noqa: reported as a violation, never swallowed
      _V(res, clause + '-raises', f'{clause}-raises|{type(e).__name__}',
         f'{clause} raised {type(e).__name__}: {e} on a legal input', case)
      core.outcome(res, f'{clause}-raises-{type(e).__name__}')
      return False, None

  def expect(clause, case_id, case, got, exp, what):
    if got != exp:
      _V(res, clause, f'{clause}|{ctx}|{case_id}', what, case, observed=got, expected=exp)
      return False
    return True

  for am in unit['amasks']:
    for side in ('a', 'b'):
      if side == 'b' and origin == 'module':
        continue
      ma = R.model_state(uni, scheme, side, am)
      cid = f'{side}={am:0{n}b}'
      case = dict(universe=uni, scheme=scheme, origin=origin, state=_txt(ma))
      _single_state(res, call, expect, S, ma, cid, case, seed)
      _split_clauses(res, call, expect, S, ma, f'{ctx}|{cid}', cid, case, tuples, realf)
    ma = R.model_state(uni, scheme, 'a', am)
    for bm in range(2 ** n):
      mb = R.model_state(uni, scheme, 'b', bm)
      cid = f'a={am:0{n}b},b={bm:0{n}b}'
      case = dict(universe=uni, scheme=scheme, origin=origin, a=_txt(ma), b=_txt(mb))
      if ma and mb:
        res['nontrivial'].append(core.h([ctx, am, bm]))
      _pair_clauses(res, call, expect, S, ma, mb, f'{ctx}|{cid}', cid, case)
  if unit['amasks'][0] == 0 or not res['samples']:
    am, bm = unit['amasks'][-1], 2 ** n - 2
    a, b = S(R.model_state(uni, scheme, 'a', am)), S(R.model_state(uni, scheme, 'b', bm))
    res['samples'].append(dict(universe=uni, scheme=scheme, a=_txt(_obs(a)), b=_txt(_obs(b)),
                               a_or_b=_txt(_obs(a | b)),
                               pure_a=repr(nnx.to_pure_dict(a))))


def _txt(model):
  return {'/'.join(map(repr, p)): list(tv) for p, tv in sorted(model.items())}


def _single_state(res, call, expect, S, m, cid, case, seed):
  from flax import nnx
  s = S(m)
  # --- flat state: sorted paths, same leaves, and back
  ok, fs = call('to_flat_state', case, lambda: nnx.to_flat_state(s))
  if ok:
    expect('flat-paths', cid, case, list(fs.paths), sorted(m),
           'to_flat_state paths are not the sorted paths of the state')
    expect('flat-leaves', cid, case, _obs_pairs(zip(fs.paths, fs.leaves)), m,
           'to_flat_state leaves differ from the state')
    expect('flat-iter', cid, case, _obs_pairs(list(fs)), m,
           'iterating the FlatState does not give its (path, leaf) pairs')
    pairs = list(fs)
    rot = seed % (len(pairs) or 1)
    variants = [('flatstate', fs), ('mapping', dict(pairs)), ('pairs', pairs),
                ('reversed-pairs', pairs[::-1]), ('rotated-mapping',
                                                  dict(pairs[rot:] + pairs[:rot]))]
    for vn, arg in variants:
      ok2, back = call('from_flat_state', case, lambda: nnx.from_flat_state(arg))
      if ok2:
        expect('flat-roundtrip', f'{cid}|{vn}', case, _obs(back), m,
               f'from_flat_state(to_flat_state(s)) [{vn}] != s')
    ok2, back = call('to_nested_state', case, lambda: fs.to_nested_state())
    if ok2:
      expect('flat-roundtrip', f'{cid}|to_nested_state', case, _obs(back), m,
             'FlatState.to_nested_state() != s')
  # --- pure dict
  ok, pure = call('to_pure_dict', case, lambda: nnx.to_pure_dict(s))
  if ok:
    exp_pure = R.nest({p: v for p, (t, v) in m.items()})
    got = _pure_obs(pure)
    expect('pure-dict', cid, case, got, _pure_obs(exp_pure),
           'to_pure_dict is not the nested dict of raw values')
    # replace into a state of the same structure but other values: lossless
    m2 = {p: (t, v + 100) for p, (t, v) in m.items()}
    for vn, pd in (('same-keys', pure), ('str-int-keys', _strkeys(pure))):
      s2 = S(m2)
      ok2, _ = call('replace_by_pure_dict', case, lambda: nnx.replace_by_pure_dict(s2, pd))
      if ok2:
        expect('pure-replace', f'{cid}|{vn}', case, _obs(s2), m,
               f'replace_by_pure_dict(s2, to_pure_dict(s)) [{vn}] does not reproduce s')
        ok3, pure2 = call('to_pure_dict', case, lambda: nnx.to_pure_dict(s2))
        if ok3:
          expect('pure-roundtrip', f'{cid}|{vn}', case, _pure_obs(pure2), _pure_obs(exp_pure),
                 'to_pure_dict after replace_by_pure_dict differs')
  core.outcome(res, f'single paths={len(m)}')


def _pure_obs(d, prefix=()):
  out = {}
  for k, v in d.items():
    if isinstance(v, Mapping):
      if not v:
        out[prefix + (k,)] = 'EMPTY-DICT'
      out.update(_pure_obs(v, prefix + (k,)))
    else:
      out[prefix + (k,)] = int(v)
  return out


def _strkeys(d):
  """what a pure dict looks like after a trip through a string-keyed store."""
  if isinstance(d, Mapping):
    return {str(k) if isinstance(k, int) else k: _strkeys(v) for k, v in d.items()}
  return d


def _split_clauses(res, call, expect, S, m, xid, cid, case, tuples, realf):
  from flax import nnx
  from flax.nnx import statelib
  s = S(m)
  fs = nnx.to_flat_state(s)
  for ft in tuples:
    parts = R.partition(m, ft)
    rest = parts[-1]
    fid = f'{cid}|F=' + ','.join(ft)    # expect() adds the context itself
    xfid = f'{xid}|F=' + ','.join(ft)  # for keys built here
    c2 = dict(case, filters=list(ft))
    F = [realf[f] for f in ft]
    # filter_state: first-match partition, rest dropped
    for api, fn in (('filter_state', lambda: nnx.filter_state(s, *F)),
                    ('State.filter', lambda: s.filter(*F)),
                    ('FlatState.filter', lambda: fs.filter(*F))):
      ok, out = call(api, c2, fn)
      if not ok:
        continue
      outs = _as_tuple(out)
      if (len(F) == 1) != (not isinstance(out, tuple)) or len(outs) != len(F):
        _V(res, 'filter-shape', f'filter-shape|{api}|{xfid}',
           f'{api} must return one state for one filter and a tuple otherwise', c2,
           observed=type(out).__name__)
        continue
      got = [_obs_pairs(list(o)) if api.startswith('FlatState') else _obs(o) for o in outs]
      expect('filter-partition', f'{api}|{fid}', c2, got, parts[:-1],
             f'{api} is not the first-match partition')
    # split_state: the same partition, and an error when something is left over
    for api, fn in (('split_state', lambda: nnx.split_state(s, *F)),
                    ('State.split', lambda: s.split(*F)),
                    ('FlatState.split', lambda: fs.split(*F))):
      res['evals'] += 1
      try:
        out = fn()
      except ValueError:
        if rest:
          core.outcome(res, 'split non-exhaustive: ValueError')
        else:
          _V(res, 'split-raises', f'split-raises|{api}|{xfid}',
             f'{api} raised ValueError although every leaf matches a filter', c2)
        continue
      if rest:
        _V(res, 'split-nonexhaustive', f'split-nonexhaustive|{api}|{xfid}',
           f'{api} returned although leaves {sorted(rest)} match no filter (they are lost)',
           c2, observed=repr(out)[:500])
        continue
      outs = _as_tuple(out)
      if (len(F) == 1) != (not isinstance(out, tuple)) or len(outs) != len(F):
        _V(res, 'split-shape', f'split-shape|{api}|{xfid}',
           f'{api} must return one state for one filter and a tuple otherwise', c2,
           observed=type(out).__name__)
        continue
      flat_api = api.startswith('FlatState')
      got = [_obs_pairs(list(o)) if flat_api else _obs(o) for o in outs]
      if not expect('split-partition', f'{api}|{fid}', c2, got, parts[:-1],
                    f'{api} is not the first-match partition'):
        continue
      # merge is the inverse of split
      if flat_api:
        ok, back = call('FlatState.merge', c2, lambda: statelib.FlatState.merge(*outs))
        if ok:
          expect('split-merge', f'{api}|{fid}', c2,
                 (list(back.paths), _obs_pairs(list(back))), (sorted(m), m),
                 'FlatState.merge(*flat.split(*F)) != flat')
      else:
        for mapi, mfn in (('merge_state', lambda: nnx.merge_state(*outs)),
                          ('State.merge', lambda: nnx.State.merge(*outs))):
          if mapi == 'State.merge' and api != 'State.split':
            continue
          ok, back = call(mapi, c2, mfn)
          if ok:
            expect('split-merge', f'{mapi}|{api}|{fid}', c2, _obs(back), m,
                   f'{mapi}(*{api}(s, *F)) != s')
      core.outcome(res, 'split sizes=' + ','.join(str(len(p)) for p in parts[:-1]))


def _pair_clauses(res, call, expect, S, ma, mb, xid, cid, case):
  from flax import nnx
  from flax.nnx import statelib
  a, b = S(ma), S(mb)
  snap = (_obs(a), _obs(b))
  # merge: union of the paths, the later state wins where both have the path
  for name, fn, exp in (
      ('merge(a,b)', lambda: nnx.merge_state(a, b), R.m_merge(ma, mb)),
      ('merge(b,a)', lambda: nnx.merge_state(b, a), R.m_merge(mb, ma)),
      ('merge(a,b,a)', lambda: nnx.merge_state(a, b, a), R.m_merge(ma, mb, ma)),
      ('State.merge(a,b)', lambda: nnx.State.merge(a, b), R.m_merge(ma, mb)),
      ('a|b', lambda: a | b, R.m_merge(ma, mb)),
      ('b|a', lambda: b | a, R.m_merge(mb, ma))):
    ok, out = call('merge', dict(case, op=name), fn)
    if ok:
      expect('merge', f'{name}|{cid}', dict(case, op=name), _obs(out), exp,
             f'{name}: must hold the union of the paths, later states winning on overlap')
  # difference: exactly the paths of the left operand that the right one lacks
  for name, fn, exp in (
      ('diff(a,b)', lambda: statelib.diff(a, b), R.m_diff(ma, mb)),
      ('a-b', lambda: a - b, R.m_diff(ma, mb)),
      ('diff(b,a)', lambda: statelib.diff(b, a), R.m_diff(mb, ma))):
    ok, out = call('diff', dict(case, op=name), fn)
    if ok:
      expect('diff', f'{name}|{cid}', dict(case, op=name), _obs(out), exp,
             f'{name}: must keep exactly the paths of the left state absent from the right, '
             'with the left values')
  if (_obs(a), _obs(b)) != snap:
    _V(res, 'operands-changed', f'operands-changed|{xid}',
       'merge / diff / | / - modified an operand', case)
  # pure dict of b written into a: defined when paths(b) is a subset of paths(a)
  pure_b = nnx.to_pure_dict(b)
  a2 = S(ma)
  res['evals'] += 1
  sub = set(mb) <= set(ma)
  try:
    nnx.replace_by_pure_dict(a2, pure_b)
    raised = False
  except ValueError:
    raised = True
  if sub and raised:
    _V(res, 'pure-replace-raises', f'pure-replace-raises|{xid}',
       'replace_by_pure_dict raised ValueError although every key exists in the state', case)
  elif not sub and not raised:
    _V(res, 'pure-replace-foreign', f'pure-replace-foreign|{xid}',
       'replace_by_pure_dict accepted a pure dict with a path the state does not have', case,
       observed=_obs(a2))
  elif sub:
    exp = {p: (t, mb[p][1] if p in mb else v) for p, (t, v) in ma.items()}
    expect('pure-replace-pair', cid, case, _obs(a2), exp,
           'replace_by_pure_dict(a, to_pure_dict(b)): values of b at its paths, everything '
           'else (types, other paths) from a')
  core.outcome(res, f'pair |a|={len(ma)} |b|={len(mb)} common={len(set(ma) & set(mb))}')


def _run_hollow(res):
  """States that contain empty sub-dicts (no paths below them): merging such a state, before
  or after a populated one, neither adds nor removes a path; | and - likewise."""
  import itertools
  from flax import nnx
  from flax.nnx import statelib

  def leaf(v):
    return nnx.VariableState(nnx.Param, v)

  def mk(spec):
    """spec: nested dict with ints as leaves and {} as empty sub-dicts"""
    def conv(d):
      return {k: (conv(v) if isinstance(v, dict) else leaf(v)) for k, v in d.items()}
    return nnx.State(conv(spec))

  def paths(state):
    return {tuple(p): int(v.value) for p, v in nnx.to_flat_state(state)}

  specs = [
    {'x': {'a': 1, 'b': 2}, 'y': 3},
    {'x': {}},
    {'x': {'a': {}}},
    {'x': {'a': 5}},
    {'y': {}},
    {},
    {'x': {'b': {}} , 'z': 9},
  ]

  def model_paths(spec, prefix=()):
    out = {}
    for k, v in spec.items():
      if isinstance(v, dict):
        out.update(model_paths(v, prefix + (k,)))
      else:
        out[prefix + (k,)] = v
    return out

  def conflict(ms):
    """a leaf path of one state that is a proper prefix of a path in another: not mergeable"""
    allp = [set(m) for m in ms]
    for i, a in enumerate(allp):
      for j, b in enumerate(allp):
        if i != j and any(len(q) > len(p) and q[:len(p)] == p for p in a for q in b):
          return True
    return False

  for n in (2, 3):
    for combo in itertools.product(range(len(specs)), repeat=n):
      sp = [specs[i] for i in combo]
      ms = [model_paths(s_) for s_ in sp]
      if conflict(ms):
        continue
      exp = {}
      for m in ms:
        exp.update(m)
      key = f'hollow|{list(combo)}'
      res['evals'] += 1
      try:
        got = paths(nnx.merge_state(*[mk(s_) for s_ in sp]))
      except Exception as e:  # noqa
        core.violation(res, f'hollow-merge-raises|{key}', f'{type(e).__name__}: {str(e)[:200]}',
                       dict(states=sp))
        continue
      if got != exp:
        core.violation(res, f'hollow-merge|{key}',
                       'merge_state with a state that holds an empty sub-dict is not the union of '
                       'paths with later states winning', dict(states=sp),
                       observed=sorted(map(list, got)), expected=sorted(map(list, exp)))
      if n == 2:
        res['evals'] += 2
        a, b = mk(sp[0]), mk(sp[1])
        if paths(a | b) != exp:
          core.violation(res, f'hollow-or|{key}', 'a | b is not the union of paths', dict(states=sp))
        try:
          d = paths(a - b)
          want = {p: v for p, v in ms[0].items() if p not in ms[1]}
          if d != want:
            core.violation(res, f'hollow-diff|{key}', 'a - b is not the paths of a absent from b',
                           dict(states=sp), observed=sorted(map(list, d)),
                           expected=sorted(map(list, want)))
        except Exception as e:  # noqa
          core.violation(res, f'hollow-diff-raises|{key}', f'{type(e).__name__}: {str(e)[:200]}',
                         dict(states=sp))
      core.outcome(res, 'hollow:ok')
      if any(not m for m in ms) or any(s_ != {} and not model_paths(s_) for s_ in sp):
        res['nontrivial'].append(core.h(key))
  res['samples'].append(dict(part='hollow', states=specs[:3]))
