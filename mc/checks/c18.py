"""C18 — Linen<->NNX bridge wrappers behave like the module they wrap (DESIGN §4 C18).

Explicit-state BFS over call histories on the real wrappers.

* ToNNX side: a state is what the wrapper holds (its Variables by attribute
  path, plus the Rngs key/count when the wrapped module draws keys); a
  transition is one call on the live wrapper (the state is re-reached by
  replaying the history on fresh objects).  Oracle: a *shadow* run of the
  plain Linen module (`init_with_output` / `apply` + dict merge of the returned
  updates) that never touches bridge code, fed with the keys a clone of the
  wrapper's Rngs yields.
* ToLinen side: a state is the Linen variable dict; a transition is one
  `apply`.  Oracle: a *twin* — the plain NNX class constructed directly, its
  Variables set attribute by attribute from the variable dict, reseeded with
  the keys plain Linen hands to a module at that position — plus, for
  all-`mutable=True` histories, a live twin that is never rebuilt.
* conversion functions: round trips in both directions on every state seen,
  inputs left intact; the name<->type registry is a bijection on every name
  and type seen.
"""
from __future__ import annotations

import os

import numpy as np

from mc.engine import core
from mc.engine.canon import canon_tree, leaf_sig

PROPERTY = 'C18'
LEVEL = 'model_checking'
RULE = ('programs = {ToNNX(linen member), NNX parent holding ToNNX(member), '
        'ToLinen(nnx member), Linen parent holding to_linen(member)} x member features '
        '{stateless, batch_stats+custom collection, dropout rng, Partitioned/sharded param, static '
        'attribute changed by a call (NNX side), combinations} x pass-through nesting depth 0..2 x Rngs configuration x 3 input shapes; '
        'per program BFS over ALL call histories up to the tier depth over the action alphabet '
        '{train, eval, other method / alt branch} x mutable filter (x apply rngs / call-time Rngs), '
        'deduplicated on the canonical state held by the wrapper; a state is non-trivial when the '
        'program has a mutable collection, rng use, sharding metadata, mutable static data, nesting '
        'or a foreign parent; '
        'distinct = distinct (program, canonical state)')
ASSUMPTIONS = [
  'members are the hand-written family of mc/models/c18_family.py (both APIs, same arithmetic); '
  'data are small integers in float32 so comparisons are bitwise',
  'plain Linen init/apply, plain NNX modules, nnx.Rngs/nnx.clone/nnx.reseed and Linen make_rng are '
  'trusted as oracles (covered by C01/C03/C09); no bridge code is used on the oracle side',
  'no device mesh: sharding metadata is compared as names / PartitionSpec, not as placed arrays',
  'a Linen module using one variable name in two collections is probed in one configuration only '
  "(feats=twin); bridge.Module / bridge.compact and the interop helpers are not part of the claim",
  'ToLinen(init): the wrapped call is made in eval mode so construction-time and post-call '
  'state coincide',
]

SHAPES = [(3,), (1, 3), (2, 3)]
_POOL = [
  [1., 2., 0., 3., 1., 2.],
  [2., 0., 1., 1., 3., 0.],
  [0., 1., 3., 2., 2., 1.],
  [3., 1., 1., 0., 2., 2.],
]

# action = [mode, mutable, option]
#   ToNNX : mode train|eval|other ; mutable None (kwarg absent) | False | True | [cols];
#           option None | 'rngs' (call-time Rngs) | 'fn' (method given as function)
#   ToLinen: mode train|eval|alt ; mutable None|True|str|[cols]; option None | 5 | 6 (apply dropout key)
TONNX_ACTIONS_Q = [
  ['eval', None, None], ['train', None, None], ['train', ['batch_stats'], None],
  ['train', True, None], ['eval', True, None], ['other', None, None],
  ['other', ['batch_stats', 'counter'], None], ['train', ['batch_stats'], 'rngs'],
]
TONNX_ACTIONS_T = TONNX_ACTIONS_Q + [
  ['train', ['batch_stats', 'counter'], None], ['eval', ['counter'], None],
  ['eval', False, None], ['other', None, 'fn'], ['train', 'batch_stats', None],
]
TOLINEN_ACTIONS_Q = [
  ['eval', None, None], ['train', None, 5], ['train', ['batch_stats'], 5],
  ['train', True, 5], ['train', True, None], ['eval', True, None], ['alt', None, None],
]
TOLINEN_ACTIONS_T = TOLINEN_ACTIONS_Q + [
  ['train', True, 6], ['train', ['batch_stats', 'Count'], None],
  ['train', ['batch_stats', 'RngCount', 'RngKey'], 5], ['train', 'batch_stats', None],
  ['alt', True, None], ['train', ['batch_stats', 'nnx'], 6],
]

FEATS_TONNX_Q = [[], ['bn'], ['rng'], ['part'], ['bn', 'part']]
FEATS_TONNX_T = FEATS_TONNX_Q + [['bn', 'rng'], ['rng', 'part'], ['bn', 'rng', 'part']]
FEATS_TOLINEN_Q = [[], ['bn'], ['rng'], ['part'], ['lpart'], ['bn', 'part'], ['dyn']]
FEATS_TOLINEN_T = FEATS_TOLINEN_Q + [['bn', 'rng'], ['bn', 'lpart'], ['bn', 'rng', 'part'],
                                      ['rng', 'lpart'], ['bn', 'dyn']]
RNGCFG_Q = ['default', 'named', 'both']
RNGCFG_T = ['default', 'named', 'mixed', 'both']


def bounds(tier):
  q = tier == 'quick'
  d = dict(nesting_depth=[0, 1, 2], shapes=SHAPES,
           tonnx_features=FEATS_TONNX_Q if q else FEATS_TONNX_T,
           tolinen_features=FEATS_TOLINEN_Q if q else FEATS_TOLINEN_T,
           rngs_configs=RNGCFG_Q if q else RNGCFG_T)
  if q:
    d.update(history_depth=3, tonnx_actions=len(TONNX_ACTIONS_Q),
             tolinen_actions=len(TOLINEN_ACTIONS_Q), init_call_shape_pairs='same shape',
             tonnx_init_modes=['eval'])
  else:
    d.update(slices=[
      'A: same-shape pairs, init eval, full action alphabet '
      f'({len(TONNX_ACTIONS_T)} ToNNX / {len(TOLINEN_ACTIONS_T)} ToLinen actions), history depth 3',
      'B: shape (2,3), Rngs config named, quick action alphabet, history depth 4',
      'C: the 6 cross-shape pairs (init eval) and the 3 same-shape pairs with lazy_init(train=True) '
      '[ToNNX only], full action alphabet, history depth 2'])
  return d


# program = [init shape index, call shape index, init_train, history bound, alphabet 'Q'|'T']
def units(tier, seed):
  q = tier == 'quick'
  us = []
  same = [(i, i) for i in range(3)]
  cross = [(i, j) for i in range(3) for j in range(3) if i != j]
  for feats in (FEATS_TONNX_Q if q else FEATS_TONNX_T):
    for depth in (0, 1, 2):
      for parent in (False, True):
        for cfg in (RNGCFG_Q if q else RNGCFG_T):
          base = dict(side='tonnx', feats=feats, depth=depth, parent=parent, rngcfg=cfg)
          if q:
            us.append(dict(base, progs=[[i, j, False, 3, 'Q'] for i, j in same]))
          else:
            us.append(dict(base, progs=[[i, j, False, 3, 'T'] for i, j in same]
                           + [[i, j, False, 2, 'T'] for i, j in cross]
                           + [[i, j, True, 2, 'T'] for i, j in same]))
            if cfg == 'named':
              us.append(dict(base, progs=[[2, 2, False, 4, 'Q']]))
  # one configuration of a Linen module that uses a variable name in two collections
  us.append(dict(side='tonnx', feats=['twin'], depth=0, parent=False, rngcfg='named',
                 progs=[[2, 2, False, 3, 'Q']]))
  for feats in (FEATS_TOLINEN_Q if q else FEATS_TOLINEN_T):
    for depth in (0, 1, 2):
      for parent in (False, True):
        base = dict(side='tolinen', feats=feats, depth=depth, parent=parent)
        if q:
          for i, j in same:
            us.append(dict(base, progs=[[i, j, False, 3, 'Q']]))
        else:
          us.append(dict(base, progs=[[i, j, False, 3, 'T'] for i, j in same]))
          us.append(dict(base, progs=[[i, j, False, 2, 'T'] for i, j in cross]
                         + [[2, 2, False, 4, 'Q']]))
  k = seed % len(us)
  return us[k:] + us[:k] + [dict(side='subtype', progs=[])]


def setup_worker():
  import jax  # noqa
  import flax  # noqa
  from mc.models import c18_family  # noqa


def _x(si, salt):
  import jax.numpy as jnp
  seed = int(os.environ.get('VERIF_SEED', '0'))
  shape = SHAPES[si]
  n = int(np.prod(shape))
  return jnp.asarray(np.array(_POOL[(seed + si + salt) % len(_POOL)][:n], np.float32).reshape(shape))


def _a(x):
  """Canonical form of an output (an array; anything else by structure)."""
  if isinstance(x, (tuple, list, dict)):
    import jax
    return ('tree', str(jax.tree.structure(x)), tuple(leaf_sig(l) for l in jax.tree.leaves(x)))
  return canon_tree(np.asarray(x))


def _show(x):
  if isinstance(x, (tuple, list, dict)):
    return repr(x)[:600]
  return np.asarray(x).tolist()


def _astr(a):
  mode, mut, opt = a
  s = mode
  if mut is not None:
    s += f'[mut={mut!r}]'
  if opt is not None:
    s += f'[{opt}]'
  return s


class _Ctx:
  """Per-program reporting: first violation per clause, stable keys."""

  def __init__(self, res, pkey, case):
    self.res, self.pkey, self.case = res, pkey, case
    self.reported = set()

  def V(self, clause, hist, what, observed=None, expected=None):
    res = self.res
    res['extra']['violating_checks'] = res['extra'].get('violating_checks', 0) + 1
    if clause in self.reported:
      return
    self.reported.add(clause)
    core.violation(res, f'{clause}|{self.pkey}|{hist}', what, dict(self.case, history=hist),
                   observed=observed, expected=expected)


def run_unit(unit):
  res = core.new_result()
  if unit['side'] == 'subtype':
    _tolinen_subtypes(res)
    return res
  for prog in unit['progs']:
    if unit['side'] == 'tonnx':
      _tonnx_program(res, unit, prog)
    else:
      _tolinen_program(res, unit, prog)
  return res


# ===========================================================================
# registry bijection


def _check_registry(ctx, hist, cols, types):
  """name -> type -> name on every collection name seen, type -> name -> type
  on every Variable type seen, distinct names <-> distinct types."""
  from flax import nnx
  from flax.nnx import variablelib as vl
  seen_t = {}
  for c in sorted(cols):
    try:
      t = vl.variable_type_from_name(c)
      back = vl.variable_name_from_type(t)
    except ValueError as e:
      ctx.V('registry', hist, f'collection name {c!r} seen in bridged variables is not in the '
            f'registry: {e}'[:300])
      continue
    if back != c:
      ctx.V('registry', hist, f'variable_name_from_type(variable_type_from_name({c!r})) = {back!r}')
    if vl.variable_type_from_name(c) is not t:
      ctx.V('registry', hist, f'variable_type_from_name({c!r}) returned two different types')
    if t in seen_t:
      ctx.V('registry', hist, f'names {seen_t[t]!r} and {c!r} map to the same type {t}')
    seen_t[t] = c
  for t in sorted(types, key=lambda t: t.__qualname__):
    try:
      n = vl.variable_name_from_type(t)
      t2 = vl.variable_type_from_name(n)
    except ValueError as e:
      ctx.V('registry', hist, f'Variable type {t} seen in bridged state is not in the registry: '
            f'{e}'[:300])
      continue
    if t2 is not t:
      ctx.V('registry', hist, f'variable_type_from_name(variable_name_from_type({t})) = {t2}')
  # the two names every Linen program relies on
  if 'params' in cols and vl.variable_type_from_name('params') is not nnx.Param:
    ctx.V('registry', hist, "'params' is not nnx.Param")
  if 'batch_stats' in cols and vl.variable_type_from_name('batch_stats') is not nnx.BatchStat:
    ctx.V('registry', hist, "'batch_stats' is not nnx.BatchStat")


# ===========================================================================
# conversion functions


def _check_roundtrip_linen(ctx, hist, variables):
  """linen vars -> nnx attrs -> linen vars: values, names, sharding metadata;
  the input is left intact; every attr has the type of its collection."""
  from flax import nnx
  from flax.nnx import variablelib as vl
  from flax.nnx.bridge import variables as bv
  from mc.models import c18_ref as R
  ctx.res['evals'] += 2
  want = R.canon_vars(variables)
  vin = R.fresh(variables)
  attrs = bv.linen_vars_to_nnx_attrs(vin)
  if R.canon_vars(vin) != want:
    ctx.V('convert-input-mutated', hist,
          'linen_vars_to_nnx_attrs changed the variables passed to it',
          observed=repr(R.canon_vars(vin))[:1500], expected=repr(want)[:1500])
  # types / values / metadata of the attrs, read directly
  flat_attrs = R.flat(attrs)
  for path, leaf in R.flat(variables).items():
    col, p = path[0], tuple(path[1:])
    if col == 'nnx':
      continue
    v = flat_attrs.get(p)
    if not isinstance(v, nnx.Variable):
      ctx.V('convert-attrs', hist, f'linen_vars_to_nnx_attrs: no Variable at {p} for {path}')
      continue
    if type(v) is not vl.variable_type_from_name(col):
      ctx.V('convert-attrs', hist, f'linen_vars_to_nnx_attrs: {path} became {type(v).__name__}')
    if leaf_sig(v.value) != leaf_sig(R.unbox1(leaf)):
      ctx.V('convert-attrs', hist, f'linen_vars_to_nnx_attrs: value of {path} changed')
    md = v.get_metadata()
    if md.get('sharding') != R.names_of(leaf):
      ctx.V('convert-attrs', hist, f'linen_vars_to_nnx_attrs: sharding of {path} is '
            f'{md.get("sharding")!r}, Linen box has {R.names_of(leaf)!r}')
  snap = {p: R.var_sig(v) for p, v in flat_attrs.items() if isinstance(v, nnx.Variable)}
  back = bv.nnx_attrs_to_linen_vars(attrs)
  if {p: R.var_sig(v) for p, v in flat_attrs.items() if isinstance(v, nnx.Variable)} != snap:
    ctx.V('convert-input-mutated', hist, 'nnx_attrs_to_linen_vars changed the Variables passed to it')
  got = R.canon_vars(back)
  if got != want:
    ctx.V('roundtrip-linen', hist, 'linen vars -> nnx attrs -> linen vars is not the identity',
          observed=repr(got)[:1500], expected=repr(want)[:1500])
  return attrs


def _check_roundtrip_nnx(ctx, hist, attrs):
  """nnx attrs -> linen vars -> nnx attrs: types, values, metadata."""
  from flax import nnx
  from flax.nnx.bridge import variables as bv
  from mc.models import c18_ref as R
  ctx.res['evals'] += 2
  want = {p: R.var_sig(v) for p, v in R.flat(attrs).items() if isinstance(v, nnx.Variable)}
  lv = bv.nnx_attrs_to_linen_vars(attrs)
  again = bv.linen_vars_to_nnx_attrs(lv)
  got = {p: R.var_sig(v) for p, v in R.flat(again).items() if isinstance(v, nnx.Variable)}
  if got != want:
    ctx.V('roundtrip-nnx', hist, 'nnx attrs -> linen vars -> nnx attrs is not the identity',
          observed=repr(sorted(got.items()))[:1500], expected=repr(sorted(want.items()))[:1500])


# ===========================================================================
# ToNNX


def _make_rngs(cfg):
  from flax import nnx
  if cfg == 'default':
    return nnx.Rngs(3)
  if cfg == 'named':
    return nnx.Rngs(params=1, dropout=2)
  if cfg == 'both':       # a default stream AND a params stream: params must come from params
    return nnx.Rngs(5, params=1, dropout=2)
  return nnx.Rngs(0, dropout=2)


def _draw(rngs):
  """One key per stream of (a clone of) an Rngs: what the wrapper hands to Linen."""
  return {name: stream() for name, stream in rngs.items()}


class _Broken(Exception):
  pass


def _tonnx_program(res, unit, prog):
  import jax
  import jax.numpy as jnp
  from flax import nnx
  from flax.nnx import bridge
  from flax.nnx import variablelib as vl
  from mc.models import c18_family as F
  from mc.models import c18_ref as R

  si, sc, itrain, depth_bound, alpha = prog
  actions = TONNX_ACTIONS_Q if alpha == 'Q' else TONNX_ACTIONS_T
  feats, depth, parent, cfg = tuple(unit['feats']), unit['depth'], unit['parent'], unit['rngcfg']
  x0, x = _x(si, 0), _x(sc, 1)
  pkey = (f'tonnx:feats={"+".join(feats) or "none"}:depth={depth}:parent={int(parent)}:'
          f'rngs={cfg}:init={"train" if itrain else "eval"}:shapes={SHAPES[si]}>{SHAPES[sc]}')
  case = dict(unit={k: v for k, v in unit.items() if k != 'progs'}, prog=prog, init_shape=SHAPES[si],
              call_shape=SHAPES[sc], x=np.asarray(x).tolist())
  ctx = _Ctx(res, pkey, case)
  uses_rng = 'rng' in feats
  nontriv = bool(feats) or depth > 0 or parent

  def canon_state(model, wrapper):
    c = tuple(sorted((p, R.var_sig(v) if isinstance(v, nnx.Variable) else ('foreign', repr(type(v))))
                     for p, v in R.held(wrapper).items()))
    if uses_rng:
      c = (c, R.rng_sig(model.rngs))
    return c

  def check_state(wrapper, shadow, hist, clause):
    """What the wrapper holds == the shadow Linen variables (names, values,
    collection -> Variable type, sharding names)."""
    ok = True
    h = R.held(wrapper)
    exp = {}
    for path, leaf in R.flat(shadow).items():
      p = tuple(path[1:])
      if p in exp:
        # one Linen name in two collections: both must survive the conversion
        ctx.V('tonnx-name-clash', hist, f'Linen variables {exp[p][0]}/{"/".join(p)} and '
              f'{path[0]}/{"/".join(p)} cannot both be held: the wrapper has '
              f'{type(h.get(p)).__name__} at attribute path {p}',
              observed=sorted('/'.join(q) for q in h), expected=sorted('/'.join(q) for q in R.flat(shadow)))
        return False
      exp[p] = (path[0], leaf)
    missing = sorted(set(exp) - set(h))
    extra = sorted(set(h) - set(exp))
    if missing or extra:
      ctx.V(clause, hist, 'the wrapper does not hold exactly the Linen variables '
            '(init result merged with the updates returned so far)',
            observed=dict(missing=[list(p) for p in missing], extra=[list(p) for p in extra]),
            expected=sorted('/'.join(p) for p in exp))
      ok = False
    for p in sorted(set(exp) & set(h)):
      col, leaf = exp[p]
      v = h[p]
      if not isinstance(v, nnx.Variable):
        ctx.V(clause, hist, f'attribute {p} of the wrapper is {type(v).__name__}, not a Variable')
        ok = False
        continue
      try:
        t = vl.variable_type_from_name(col)
      except ValueError:
        t = None
      if type(v) is not t:
        ctx.V('tonnx-type', hist, f'collection {col!r} variable {p} is stored as {type(v)}, '
              f'variable_type_from_name({col!r}) is '
              + ('not registered' if t is None else repr(t)))
        ok = False
      if leaf_sig(v.value) != leaf_sig(R.unbox1(leaf)):
        ctx.V(clause, hist, f'value of {col}/{"/".join(p)} held by the wrapper differs from the '
              'Linen variable', observed=np.asarray(v.value).tolist(),
              expected=np.asarray(R.unbox1(leaf)).tolist())
        ok = False
      if v.get_metadata().get('sharding') != R.names_of(leaf):
        ctx.V('tonnx-sharding', hist, f'sharding metadata of {col}/{"/".join(p)}: wrapper has '
              f'{v.get_metadata().get("sharding")!r}, Linen box has {R.names_of(leaf)!r}')
        ok = False
    return ok

  memo = {}  # history prefix -> oracle result (the shadow run is pure: computed once)

  def call_wrapper(model, lin, a, wkw):
    mode, _, opt = a
    if parent:
      if mode == 'other':
        return model.other(x, **{k: v for k, v in wkw.items() if k != 'train'})
      return model(x, **wkw)
    if mode == 'other':
      return model(x, method=(type(lin).other if opt == 'fn' else 'other'), **wkw)
    return model(x, **wkw)

  def run_history(hist, count_last):
    """Replays `hist` on fresh objects (one live wrapper per history) with the
    oracle running alongside.  Returns (canonical state, label) of the last
    step; raises _Broken when the wrapper and the shadow have diverged (the
    state is not explored further)."""
    lin = F.make_linen(feats, depth)
    rngs = _make_rngs(cfg)
    if parent:
      model = F.NParent(lin, rngs=rngs)
      wrapper = model.inner
    else:
      model = bridge.ToNNX(lin, rngs=rngs)
      wrapper = model
    # ---- lazy init vs plain Linen init -------------------------------------
    clone = nnx.clone(rngs)
    keys = _draw(clone)
    if 'params' not in keys and 'default' in keys:
      keys['params'] = keys['default']  # NNX: a missing stream is the default stream
    ikw = dict(train=True) if itrain else {}
    if 'init' not in memo:
      _, shadow = lin.init_with_output(keys, x0, **ikw)
      memo['init'] = dict(shadow)
    shadow = memo['init']
    try:
      bridge.lazy_init(model, x0, **ikw)
    except Exception as ex:  # noqa: plain Linen init with the same keys succeeded
      ctx.V('tonnx-init', 'init', f'lazy_init raised {type(ex).__name__}: {str(ex)[:300]} '
            '(linen_module.init_with_output with one key per Rngs stream succeeds)')
      raise _Broken
    first = not hist
    if first:
      res['evals'] += 1
    hs = 'init'
    if not check_state(wrapper, shadow, hs, 'tonnx-init'):
      raise _Broken
    if R.rng_sig(rngs) != R.rng_sig(clone):
      ctx.V('tonnx-rngs', hs, 'lazy_init did not draw exactly one key per stream',
            observed=repr(R.rng_sig(rngs)), expected=repr(R.rng_sig(clone)))
    if first:
      _check_registry(ctx, hs, set(shadow.keys()), {type(v) for v in R.held(wrapper).values()})
      _check_roundtrip_linen(ctx, hs, shadow)
    label = 'init'
    # ---- calls ---------------------------------------------------------------
    for i, a in enumerate(hist):
      last = i == len(hist) - 1
      mode, mut, opt = a
      hs = '>'.join(['init'] + [_astr(b) for b in hist[:i + 1]])
      kw = {}
      if mode == 'train':
        kw['train'] = True
      if mut is not None:
        kw['mutable'] = mut
      use = rngs
      wkw = dict(kw)
      if opt == 'rngs':
        use = nnx.Rngs(params=8, dropout=7)
        wkw['rngs'] = use
      mkey = tuple(_astr(b) for b in hist[:i + 1])
      mm = None if last else memo.get(mkey)
      if mm is not None:
        # prefix step already validated against the oracle: replay it on the wrapper
        # and confirm it lands in the state recorded then
        an = None
        try:
          call_wrapper(model, lin, a, wkw)
        except Exception as ex:  # noqa: must be the outcome recorded for this step
          an = type(ex).__name__
        if an != mm['err']:
          ctx.V('tonnx-replay', hs, f'replaying the same history gave {an}, before {mm["err"]}')
          raise _Broken
        shadow = mm['shadow']
        if not check_state(wrapper, shadow, hs, 'tonnx-replay'):
          raise _Broken
        continue
      clone = nnx.clone(use)
      ekeys = _draw(clone)
      if mode == 'other':
        emethod = 'other'
      else:
        emethod = None
      own_before = R.rng_sig(rngs)
      calls_before = int(model.calls.value) if parent else None
      b_before = _a(model.b.value) if parent else None
      # oracle: the plain Linen module on the shadow variables
      exp_err = act_err = None
      try:
        e = lin.apply(R.fresh(shadow), x, rngs=ekeys, method=emethod, **kw)
      except Exception as ex:  # noqa: compared with the wrapper's outcome below
        exp_err = ex
      # implementation
      try:
        o = call_wrapper(model, lin, a, wkw)
      except Exception as ex:  # noqa: compared with the oracle's outcome
        act_err = ex
      if last and count_last:
        res['evals'] += 1
        res['transitions'] += 1
      mutable_call = kw.get('mutable', False) is not False
      if exp_err is not None or act_err is not None:
        en = type(exp_err).__name__ if exp_err is not None else None
        an = type(act_err).__name__ if act_err is not None else None
        if en != an:
          ctx.V('tonnx-raises', hs, f'wrapper call raised {an} '
                f'({str(act_err)[:200]}), linen_module.apply on the held variables raised {en} '
                f'({str(exp_err)[:200]})', observed=an, expected=en)
          raise _Broken
        label = f'raises:{an}'
        if not check_state(wrapper, shadow, hs, 'tonnx-state-after-error'):
          raise _Broken
        memo[mkey] = dict(err=an, shadow=shadow)
        continue
      if mutable_call:
        eout, upd = e
        new_shadow = R.merge_cols(shadow, dict(upd))
      else:
        eout, upd = e, None
        new_shadow = shadow
      if parent:
        eout = eout * 2. if mode == 'other' else eout + model.b.value
      if _a(o) != _a(eout):
        ctx.V('tonnx-output', hs, 'wrapper output differs from linen_module.apply on the '
              'variables it holds', observed=_show(o), expected=_show(eout))
      shadow = new_shadow
      if not check_state(wrapper, shadow, hs, 'tonnx-state'):
        raise _Broken
      # rng bookkeeping: exactly one draw per stream of the Rngs in use
      if R.rng_sig(use) != R.rng_sig(clone):
        ctx.V('tonnx-rngs', hs, 'the call did not draw exactly one key per stream',
              observed=repr(R.rng_sig(use)), expected=repr(R.rng_sig(clone)))
      if opt == 'rngs' and R.rng_sig(rngs) != own_before:
        ctx.V('tonnx-rngs', hs, "call-time rngs given but the wrapper's own Rngs advanced")
      if parent:
        ncall_exp = calls_before + (0 if mode == 'other' else 1)
        if int(model.calls.value) != ncall_exp or _a(model.b.value) != b_before:
          ctx.V('tonnx-parent', hs, "the NNX parent's own Variables were disturbed",
                observed=int(model.calls.value), expected=ncall_exp)
      memo[mkey] = dict(err=None, shadow=shadow)
      label = f'{mode}:ok:updates=' + (','.join(sorted(upd.keys())) if upd is not None else '-')
      if last and count_last:
        _check_registry(ctx, hs, set(shadow.keys()), {type(v) for v in R.held(wrapper).values()})
        # the wrapper's own view of its variables, through the public converter
        attrs = {k: v for k, v in vars(wrapper).items()
                 if k not in ('module', 'rngs', '_object__state')}
        from flax.nnx.bridge import variables as bv
        res['evals'] += 1
        if R.canon_vars(bv.nnx_attrs_to_linen_vars(attrs)) != R.canon_vars(shadow):
          ctx.V('convert-held', hs, 'nnx_attrs_to_linen_vars(attributes of the wrapper) differs '
                'from the Linen variables (values, names, boxes)',
                observed=repr(R.canon_vars(bv.nnx_attrs_to_linen_vars(attrs)))[:1500],
                expected=repr(R.canon_vars(shadow))[:1500])
        _check_roundtrip_nnx(ctx, hs, attrs)
        if upd is not None:
          _check_roundtrip_linen(ctx, hs, shadow)
    return canon_state(model, wrapper), label, (model, wrapper)

  # ---- BFS -------------------------------------------------------------------
  try:
    c0, _, _ = run_history((), True)
  except _Broken:
    core.outcome(res, 'tonnx:init-broken')
    return
  seen = {c0}
  res['states'] += 1
  if nontriv:
    res['nontrivial'].append(core.h([pkey, 'init']))
  frontier = [()]
  sampled = False
  for level in range(depth_bound):
    nxt = []
    for hist in frontier:
      for a in actions:
        h2 = hist + (a,)
        try:
          c, label, _ = run_history(h2, True)
        except _Broken:
          core.outcome(res, 'tonnx:diverged')
          continue
        core.outcome(res, 'tonnx:' + label)
        if c not in seen:
          seen.add(c)
          res['states'] += 1
          if nontriv:
            res['nontrivial'].append(core.h([pkey, [_astr(b) for b in h2]]))
          nxt.append(h2)
          if not sampled and level >= 1 and 'updates=-' not in label and 'raises' not in label:
            res['samples'].append(dict(program=pkey, history=[_astr(b) for b in h2],
                                       outcome=label))
            sampled = True
    frontier = nxt


# ===========================================================================
# ToLinen


def _tolinen_program(res, unit, prog):
  import jax
  import jax.numpy as jnp
  from flax import linen as nn
  from flax import nnx
  from flax.core import meta
  from flax.nnx import bridge
  from flax.nnx import variablelib as vl
  from mc.models import c18_family as F
  from mc.models import c18_ref as R

  si, sc, _, depth_bound, alpha = prog
  actions = TOLINEN_ACTIONS_Q if alpha == 'Q' else TOLINEN_ACTIONS_T
  feats, depth, parent = tuple(unit['feats']), unit['depth'], unit['parent']
  x0, x = _x(si, 0), _x(sc, 1)
  pkey = (f'tolinen:feats={"+".join(feats) or "none"}:depth={depth}:parent={int(parent)}:'
          f'shapes={SHAPES[si]}>{SHAPES[sc]}')
  case = dict(unit={k: v for k, v in unit.items() if k != 'progs'}, prog=prog, init_shape=SHAPES[si],
              call_shape=SHAPES[sc], x=np.asarray(x).tolist())
  ctx = _Ctx(res, pkey, case)
  nontriv = bool(feats) or depth > 0 or parent
  cls, args = F.nnx_ctor(feats, depth)
  if parent:
    m = F.LParent(feats, depth)
  else:
    m = bridge.ToLinen(cls, args=args)
  init_rngs = {'params': jax.random.key(1), 'dropout': jax.random.key(2)}
  sub = (lambda t: t.get('inner', {})) if parent else (lambda t: t)

  def twin_from(state, hist):
    """The plain NNX module in the state the Linen variables describe: built
    by its constructor, Variables assigned attribute by attribute."""
    twin = cls(*args, rngs=nnx.Rngs(params=0, dropout=0))
    tv = R.nnx_vars(twin)
    covered = set()
    ok = True
    for col in state.keys():
      if col == 'nnx':
        continue
      for p, leaf in R.flat(sub(state[col])).items():
        if parent and not p:
          continue
        v = tv.get(p)
        if v is None:
          ctx.V('tolinen-names', hist, f'variables[{col!r}] has an entry {p} that is not a '
                'Variable of the NNX module')
          ok = False
          continue
        covered.add(p)
        try:
          t = vl.variable_type_from_name(col)
        except ValueError:
          t = None
        if type(v) is not t:
          ctx.V('tolinen-collection', hist, f'{type(v).__name__} {"/".join(p)} is exposed in '
                f'collection {col!r} whose registered type is {t}')
          ok = False
        v.value = R.unbox1(leaf)
    if set(tv) - covered:
      ctx.V('tolinen-names', hist, 'Variables of the NNX module missing from the Linen variables',
            observed=sorted('/'.join(p) for p in set(tv) - covered))
      ok = False
    if ok and 'dyn' in feats:
      # static data lives in the stored graphdef only: take it from there (plain
      # nnx.merge, no bridge code) and keep the Variables assigned above
      gd = R.flat(sub(state.get('nnx', {}))).get(('graphdef',))
      if isinstance(gd, nnx.graph.NodeDef) and gd != nnx.graphdef(twin):
        twin = nnx.merge(gd, nnx.state(twin))
    return twin, ok

  def expect_cols(twin):
    """{collection: {path: Variable}} the twin's Variables must appear as."""
    out = {}
    for p, v in R.nnx_vars(twin).items():
      out.setdefault(vl.variable_name_from_type(type(v)), {})[p] = v
    return out

  def check_exposed(got, twin, cols, hist, clause, own):
    """`got` (a Linen collection dict restricted to `cols`) == the twin's
    Variables by collection: names, values, sharding metadata; `own` holds the
    Linen parent's own entries."""
    ok = True
    exp = expect_cols(twin)
    if set(got.keys()) != set(cols):
      ctx.V(clause, hist, 'collections returned differ from the collections that exist and '
            'match `mutable`', observed=sorted(got.keys()), expected=sorted(cols))
      ok = False
    for col in sorted(set(got.keys()) & set(cols)):
      g = dict(R.flat(got[col]))
      if parent:
        mine = {p: v for p, v in g.items() if p[0] != 'inner'}
        g = {p[1:]: v for p, v in g.items() if p[0] == 'inner'}
        want_own = own.get(col, {})
        if {p: leaf_sig(v) for p, v in mine.items()} != {p: leaf_sig(v) for p, v in want_own.items()}:
          ctx.V('tolinen-parent', hist, f"the Linen parent's own variables in {col!r} are wrong",
                observed={'/'.join(p): np.asarray(v).tolist() for p, v in mine.items()},
                expected={'/'.join(p): np.asarray(v).tolist() for p, v in want_own.items()})
          ok = False
      if col == 'nnx':
        gd = g.get(('graphdef',))
        if set(g) != {('graphdef',)} or not isinstance(gd, (nnx.graph.NodeDef, nnx.graph.NodeRef)):
          ctx.V('tolinen-graphdef', hist, "the 'nnx' collection does not hold exactly a graphdef",
                observed=sorted('/'.join(p) for p in g))
          ok = False
        elif gd != nnx.graphdef(twin):
          ctx.V('tolinen-graphdef', hist, "the graphdef in the 'nnx' collection is not the NNX "
                "module's graphdef", observed=repr(gd)[:800], expected=repr(nnx.graphdef(twin))[:800])
          ok = False
        continue
      e = exp.get(col, {})
      if set(g) != set(e):
        ctx.V(clause, hist, f'collection {col!r} does not hold exactly the '
              f'{col} Variables of the NNX module',
              observed=sorted('/'.join(p) for p in g), expected=sorted('/'.join(p) for p in e))
        ok = False
      for p in sorted(set(g) & set(e)):
        leaf, v = g[p], e[p]
        if leaf_sig(R.unbox1(leaf)) != leaf_sig(v.value):
          ctx.V(clause, hist, f'{col}/{"/".join(p)} differs from the NNX module\'s Variable',
                observed=repr(leaf_sig(R.unbox1(leaf))), expected=repr(leaf_sig(v.value)))
          ok = False
        md = v.get_metadata()
        sh = md.get('sharding')
        if R.names_of(leaf) != sh:
          ctx.V('tolinen-sharding', hist, f'sharding names of {col}/{"/".join(p)}: Linen side '
                f'{R.names_of(leaf)!r}, NNX Variable {sh!r}')
          ok = False
        elif sh is not None:
          spec = nn.get_partition_spec({'v': leaf})['v']
          if spec != jax.sharding.PartitionSpec(*sh):
            ctx.V('tolinen-sharding', hist, f'get_partition_spec of {col}/{"/".join(p)} is {spec}')
            ok = False
        lt = md.get('linen_meta_type')
        if lt is not None and not isinstance(leaf, lt):
          ctx.V('tolinen-sharding', hist, f'{col}/{"/".join(p)} was declared with Linen box '
                f'{lt.__name__} but is exposed as {type(leaf).__name__}')
          ok = False
        if isinstance(leaf, bridge.NNXMeta) and leaf.var_type is not type(v):
          ctx.V('tolinen-collection', hist, f'NNXMeta.var_type of {col}/{"/".join(p)} is '
                f'{leaf.var_type}')
          ok = False
    return ok

  def call_twin(twin, a, R_):
    mode = a[0]
    kw = {}
    if mode == 'train':
      kw['train'] = True
    if mode == 'alt':
      kw['alt'] = True
    if R_:
      nnx.reseed(twin, **F.linen_keys_at(parent, R_))
    return twin(x, **kw)

  # ---- init ------------------------------------------------------------------
  res['evals'] += 1
  try:
    out0, vars0 = m.init_with_output(init_rngs, x0)
  except Exception as ex:  # noqa: constructing and calling the NNX module directly succeeds
    ctx.V('tolinen-init', 'init', f'init raised {type(ex).__name__}: {str(ex)[:300]}')
    core.outcome(res, 'tolinen:init-broken')
    return
  vars0 = dict(vars0)
  twin0 = cls(*args, rngs=nnx.Rngs(**F.linen_keys_at(parent, init_rngs)))
  e0 = twin0(x0)
  own0 = {}
  if parent:
    own0 = {'params': {('b',): F.ramp((F.DOUT,), 3.)},
            'batch_stats': {('calls',): jnp.zeros((), jnp.int32)}}
    e0 = e0 + own0['params'][('b',)]
  if _a(out0) != _a(e0):
    ctx.V('tolinen-init-output', 'init', 'init output differs from constructing the NNX module '
          'with the keys Linen provides and calling it', observed=_show(out0), expected=_show(e0))
  cols0 = set(expect_cols(twin0)) | {'nnx'} | set(own0)
  if not check_exposed(vars0, twin0, cols0, 'init', 'tolinen-init', own0):
    core.outcome(res, 'tolinen:init-broken')
    return
  _check_registry(ctx, 'init', set(vars0.keys()) - {'nnx'},
                  {type(v) for v in R.nnx_vars(twin0).values()})
  _check_roundtrip_linen(ctx, 'init', vars0)

  # ---- BFS -------------------------------------------------------------------
  seen = {R.canon_vars(vars0)}
  res['states'] += 1
  if nontriv:
    res['nontrivial'].append(core.h([pkey, 'init']))
  frontier = [(vars0, ())]
  sampled = False
  for level in range(depth_bound):
    nxt = []
    for state, hist in frontier:
      for a in actions:
        mode, mut, opt = a
        h2 = hist + (a,)
        hs = '>'.join(['init'] + [_astr(b) for b in h2])
        kw = {}
        if mode == 'train':
          kw['train'] = True
        if mode == 'alt':
          kw['alt'] = True
        if mut is not None:
          kw['mutable'] = mut
        R_ = {'dropout': jax.random.key(opt)} if opt is not None else {}
        if R_:
          kw['rngs'] = R_
        vin = R.fresh(state)
        snap = R.canon_vars(vin)
        res['evals'] += 1
        res['transitions'] += 1
        act_err = exp_err = None
        try:
          r = m.apply(vin, x, **kw)
        except Exception as ex:  # noqa: compared with the twin's outcome
          act_err = ex
        if R.canon_vars(vin) != snap:
          ctx.V('tolinen-input-mutated', hs, 'apply changed the variables passed to it',
                observed=repr(R.canon_vars(vin))[:1500], expected=repr(snap)[:1500])
        twin, ok = twin_from(state, hs)
        if not ok:
          core.outcome(res, 'tolinen:diverged')
          continue
        try:
          eout = call_twin(twin, a, R_)
        except Exception as ex:  # noqa
          exp_err = ex
        if act_err is not None or exp_err is not None:
          en = type(exp_err).__name__ if exp_err is not None else None
          an = type(act_err).__name__ if act_err is not None else None
          if en != an:
            ctx.V('tolinen-raises', hs, f'apply raised {an} ({str(act_err)[:200]}), the NNX module '
                  f'on the same state raised {en} ({str(exp_err)[:200]})', observed=an, expected=en)
            core.outcome(res, 'tolinen:diverged')
          else:
            core.outcome(res, f'tolinen:raises:{an}')
          continue
        mutable_call = mut is not None and mut is not False
        if mutable_call:
          out, upd = r
          upd = dict(upd)
        else:
          out, upd = r, None
        own = {}
        if parent:
          b = state['params']['b']
          eout = eout + b
          calls = state['batch_stats']['calls']
          own = {'params': {('b',): b},
                 'batch_stats': {('calls',): calls + 1 if R.in_filter(mut, 'batch_stats') else calls}}
        if _a(out) != _a(eout):
          ctx.V('tolinen-output', hs, 'apply output differs from the NNX module called in the '
                'same state', observed=_show(out), expected=_show(eout))
        label = f'{mode}:ok:updates='
        if upd is not None:
          cols = {c for c in state.keys() if R.in_filter(mut, c)}
          if not check_exposed(upd, twin, cols, hs, 'tolinen-updates', own):
            core.outcome(res, 'tolinen:diverged')
            continue
          new = R.merge_cols(state, upd)
          label += ','.join(sorted(upd.keys()))
        else:
          new = state
          label += '-'
        # all-mutable histories: a live NNX module that is never rebuilt
        if all(b[1] is True for b in h2):
          live = cls(*args, rngs=nnx.Rngs(**F.linen_keys_at(parent, init_rngs)))
          for b_ in h2:
            lout = call_twin(live, b_, {'dropout': jax.random.key(b_[2])} if b_[2] is not None else {})
          if parent:
            lout = lout + state['params']['b']
          if _a(lout) != _a(out):
            ctx.V('tolinen-sequence', hs, 'feeding the returned updates back does not reproduce '
                  "the live NNX module's call sequence", observed=_show(out), expected=_show(lout))
          label += ':live'
        core.outcome(res, 'tolinen:' + label)
        c = R.canon_vars(new)
        if c not in seen:
          seen.add(c)
          res['states'] += 1
          if nontriv:
            res['nontrivial'].append(core.h([pkey, [_astr(b) for b in h2]]))
          nxt.append((new, h2))
          _check_registry(ctx, hs, set(new.keys()) - {'nnx'},
                          {type(v) for v in R.nnx_vars(twin).values()})
          _check_roundtrip_linen(ctx, hs, new)
          if not sampled and level >= 1:
            res['samples'].append(dict(program=pkey, history=[_astr(b) for b in h2],
                                       outcome=label))
            sampled = True
    frontier = nxt


# ===========================================================================
# ToLinen with Variable types related by subclassing, under every mutable filter


def _tolinen_subtypes(res):
  """A module holding Variables of a type and of a subclass of it (Param / LoRAParam /
  a Param subclass, BatchStat): after init and after apply under every subset of collections
  as `mutable`, each Variable sits in the collection named after ITS OWN type, only the
  collections selected by `mutable` come back, and their values are those the NNX module
  computes."""
  import itertools
  import jax
  import jax.numpy as jnp
  import numpy as np
  from flax import nnx
  from flax.nnx import bridge

  class MyParam(nnx.Param):
    pass

  class Stat(nnx.Variable):
    pass

  class SlowStat(Stat):
    pass

  class Inner(nnx.Module):
    def __init__(self, rngs=None):
      self.w = nnx.Param(jnp.asarray([1.0, 2.0]))
      self.steps = nnx.Param(jnp.zeros(()))
      self.lo = nnx.LoRAParam(jnp.asarray([3.0, 4.0]))
      self.mine = MyParam(jnp.asarray([5.0]))
      self.mean = nnx.BatchStat(jnp.zeros(()))
      # a user hierarchy (the subtype is met first) and a bare Variable
      self.a_slow = SlowStat(jnp.asarray([6.0]))
      self.b_stat = Stat(jnp.asarray([7.0]))
      self.raw = nnx.Variable(jnp.asarray([8.0]))

    def __call__(self, x):
      self.steps.value = self.steps.value + 1.0
      self.mean.value = self.mean.value + 2.0
      self.lo.value = self.lo.value * 2.0
      self.mine.value = self.mine.value + 10.0
      return x * self.w.value + self.lo.value.sum() + self.mine.value.sum()

  x = jnp.asarray([1.0, 1.0])
  model = bridge.to_linen(Inner)
  res['evals'] += 1
  variables = model.init(jax.random.key(0), x)
  var_type = dict(w=nnx.Param, steps=nnx.Param, lo=nnx.LoRAParam, mine=MyParam,
                  mean=nnx.BatchStat, a_slow=SlowStat, b_stat=Stat, raw=nnx.Variable)
  # collection names are read off the tree init returned and validated without asking the
  # library's own type->name function: one collection per type, different types in different
  # collections, and the two documented names
  where = {n: c for c in variables if c != 'nnx' for n in variables[c]}
  by_type = {}
  for n, t in var_type.items():
    by_type.setdefault(t, set()).add(where.get(n))
  bad = [t.__name__ for t, cs in by_type.items() if len(cs) != 1 or None in cs]
  firsts = [next(iter(cs)) for cs in by_type.values()]
  if bad or len(set(firsts)) != len(firsts) or by_type[nnx.Param] != {'params'} or \
     by_type[nnx.BatchStat] != {'batch_stats'}:
    core.violation(res, 'tolinen-subtype-collections',
                   'Variable types and Linen collections are not in one-to-one correspondence '
                   '(a type split over collections, two types in one collection, or Param / '
                   'BatchStat not under params / batch_stats)', dict(),
                   observed={t.__name__: sorted(map(str, cs)) for t, cs in by_type.items()})
  type_name = {n: where.get(n, '?') for n in var_type}
  cols = sorted(set(type_name.values()))

  def placement(vs):
    return {c: sorted(vs[c].keys()) for c in vs if c != 'nnx'}
  want_place = {c: sorted(n for n, cc in type_name.items() if cc == c) for c in cols}
  if placement(variables) != want_place:
    core.violation(res, 'tolinen-subtype-init', 'after init a Variable does not sit in the '
                   'collection named after its own type', dict(),
                   observed=placement(variables), expected=want_place)
  # expected values after one call, from the NNX module itself
  ref = Inner()
  y_ref = ref(x)
  after = dict(w=ref.w.value, steps=ref.steps.value, lo=ref.lo.value, mine=ref.mine.value,
               mean=ref.mean.value, a_slow=ref.a_slow.value, b_stat=ref.b_stat.value,
               raw=ref.raw.value)
  for r in range(0, len(cols) + 1):
    for mut in itertools.combinations(cols, r):
      for form in ((list(mut),) if mut else (False,)) + ((True,) if r == len(cols) else ()):
        key = f'mutable={form!r}'
        res['evals'] += 1
        res['transitions'] += 1
        try:
          out = model.apply(variables, x, mutable=form)
        except Exception as e:  # noqa
          core.violation(res, f'tolinen-subtype-raises|{key}',
                         f'{type(e).__name__}: {str(e)[:200]}', dict(mutable=repr(form)))
          continue
        y, upd = (out, {}) if form is False else out
        if not np.array_equal(np.asarray(y), np.asarray(y_ref)):
          core.violation(res, f'tolinen-subtype-output|{key}', 'output differs from the NNX '
                         'module', dict(mutable=repr(form)))
        sel = cols if form is True else list(mut)
        got_cols = sorted(c for c in upd if c != 'nnx')
        if got_cols != sorted(sel):
          core.violation(res, f'tolinen-subtype-collections|{key}',
                         f'returned collections {got_cols}, selected by mutable: {sorted(sel)}',
                         dict(mutable=repr(form)))
          continue
        for c in sel:
          if sorted(upd[c].keys()) != want_place[c]:
            core.violation(res, f'tolinen-subtype-placement|{key}|{c}',
                           f'collection {c} holds {sorted(upd[c].keys())}, its own type has '
                           f'{want_place[c]} (a subclass leaked into / out of it)',
                           dict(mutable=repr(form)))
            continue
          for n in want_place[c]:
            if not np.array_equal(np.asarray(bridge_unbox(upd[c][n])), np.asarray(after[n])):
              core.violation(res, f'tolinen-subtype-value|{key}|{c}/{n}',
                             'updated value differs from the NNX module', dict(mutable=repr(form)))
        core.outcome(res, f'subtype:{len(sel)}-collections')
        res['nontrivial'].append(core.h(['subtype', repr(form)]))
  res['states'] += 1
  res['samples'].append(dict(side='subtype', collections=cols))


def bridge_unbox(v):
  from flax.core import meta
  return meta.unbox(v)
