#!/bin/bash
# Runs the repository's pinned baseline (the 427 stable-pass tests of /root/.vp/BASELINE.json)
# against a tree (default /repo) and reports which of them did not pass.
# usage: tools_baseline.sh [tree] [junit-out]
TREE=${1:-/repo}
OUT=${2:-/tmp/baseline.$$.xml}
cd "$TREE" && env -u FLAX_VERIF /venv/bin/python -m pytest -q -p no:cacheprovider --timeout=900 \
  --continue-on-collection-errors -n 12 --junitxml="$OUT" tests docs/_ext examples >/dev/null 2>&1
/venv/bin/python - "$OUT" <<'PY'
import json, sys, xml.etree.ElementTree as ET
base = set(json.load(open('/root/.vp/BASELINE.json'))['stable_pass'])
ok = set(); allseen = set()
for tc in ET.parse(sys.argv[1]).getroot().iter('testcase'):
    name = f"{tc.get('classname')}::{tc.get('name')}"
    allseen.add(name)
    if not any(c.tag in ('failure', 'error', 'skipped') for c in tc):
        ok.add(name)
missing = sorted(base - ok)
print(f'baseline: {len(base)} expected, {len(base & ok)} passed, {len(missing)} not passed; total passed {len(ok)} of {len(allseen)}')
for m in missing[:40]: print('  NOT PASSED', m)
sys.exit(1 if missing else 0)
PY
rc=$?
rm -f "$OUT"
exit $rc
